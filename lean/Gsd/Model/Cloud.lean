import Gsd.Model.MetricMap
/-!
C11 — model of the cloud-enrichment stage (`pkg/statsd/handler_cloud.go`).

The owner loop of `CloudHandler.Run` is a transition system whose atomic actions are the cases of
its `select` plus the caller-side halves of `DispatchMetricMap` / `DispatchEvent` (which peek into
the cache and forward cache hits directly):

* `arriveMetrics b pk`  — `DispatchMetricMap(b)` when the cache answers `pk` (an ARBITRARY view:
                          per source *miss* | *hit nil* | *hit instance*; this covers every race between
                          the cache and an arrival) followed by `handleIncomingMetrics` of the misses;
* `arriveEvent e pk`    — `DispatchEvent(e)` likewise, followed by `handleIncomingEvent` on a miss;
* `sendLookup`          — the `toLookupC <- toLookupIP` case: one pending source goes to `IpSink()`;
* `info s r`            — `handleInstanceInfo` for `InstanceInfo{IP: s, Instance: r}`;
* `emit`                — the `emitChan` case: the gauges are written to the statser;
* `block` / `unblock`   — the DOWNSTREAM handler stops / resumes returning from `DispatchMetricMap` and
                          `DispatchEvent` (a slow backend).  The owner loop never calls downstream itself
                          (`handleInstanceInfo` hands the released data to goroutines), so it keeps
                          parking arrivals, requesting lookups and releasing while downstream is blocked;
                          what the release goroutines hand over meanwhile is `held` and reaches
                          `delivered` — in the order it was produced — at `unblock`.

What is kept exactly as the code has it: per-entry handling and the order of the bookkeeping
(`prepareMetricQueue`, `handleIncomingEvent`), the condition under which a lookup is requested and
under which a host is counted (defect D7 lives there), `AddTagsSetSource` (tags appended, source
replaced) followed by `FormatTagsKey` (which sorts the tags IN PLACE and builds the new key), the
re-keying merges (`MergeCounter` … into a fresh map), the `IsEmpty` test before the direct dispatch.

Abstractions (named in handoff/C11.md): the goroutines `go updateAndDispatch…` are part of the
`info` action (metrics first, then the events in order; the harness does not compare the relative
order of the two goroutines); `toLookupIPs` together with the one-element hand `toLookupIP` is one
stack (the order of sink writes is not part of the property and is not compared); the hit/miss
counters are per cache query as in the code.  While downstream is blocked an arrival with a cache hit
would block its CALLER inside `DispatchMetricMap` / `DispatchEvent` before the missed part reaches
the owner loop; the model puts the forwarded part into `held` and parks the missed part at once (the
two commute except for the order of lookup requests) — the driver and the harness never run that
combination (such an op first unblocks).
-/
namespace Gsd
namespace Cloud

/-- **D7 switch.**  `false` = the bookkeeping of the pinned tree (a host is counted for a type only
when that arrival also requested the lookup); `true` = the repaired bookkeeping (a host is counted
for a type whenever its queue for that type is created).  Flip this one line after applying
`handoff/C11-fix-1.patch`. -/
def d7Fixed : Bool := true

/-- `gostatsd.Instance` -/
structure Inst where
  id : String
  tags : List String
deriving DecidableEq, Repr

/-- what `CachedInstances.Peek` answers at this moment: `none` = miss, `some none` = hit on the negative
cache (instance `nil`), `some (some i)` = hit -/
abbrev Peek := String → Option (Option Inst)

/-- `gostatsd.Event`: `body` = the fields the stage never touches (title, text, date, aggregation key,
source type, priority, alert type), opaque -/
structure Event where
  body : List String
  tags : List String
  src : String
deriving DecidableEq, Repr

/-! ### tags, keys (`tags.go`, `metrics.go: FormatTagsKey`) -/

def insertSorted (a : String) : List String → List String
  | [] => [a]
  | b :: t => if a < b then a :: b :: t else b :: insertSorted a t

/-- `sort.Strings` (equal strings are indistinguishable, so stability does not matter) -/
def sortTags (l : List String) : List String := l.foldr insertSorted []

/-- `FormatTagsKey(source, tags)` on already sorted tags -/
def joinKey (src : String) (sorted : List String) : String :=
  let t := ",".intercalate sorted
  if src = "" then t else t ++ "," ++ Facts.statsdSourceID ++ ":" ++ src

/-- `getInstance`: the empty source is always a (nil) hit and the cache is not asked -/
def cacheView (pk : Peek) (src : String) : Option (Option Inst) := if src = "" then some none else pk src

def isHit (pk : Peek) (src : String) : Bool := (cacheView pk src).isSome

/-- the instance a hit carries (`none` for the negative cache / the empty source) -/
def instOf (pk : Peek) (src : String) : Option Inst := (cacheView pk src).getD none

/-- `updateInplace` → `AddTagsSetSource(instance.Tags, instance.ID)` when the instance is not nil -/
def enrichTags (i : Option Inst) (tags : List String) : List String :=
  match i with | none => tags | some x => tags ++ x.tags
def enrichSrc (i : Option Inst) (src : String) : String :=
  match i with | none => src | some x => x.id

def enrichEvent (i : Option Inst) (e : Event) : Event :=
  { e with tags := enrichTags i e.tags, src := enrichSrc i e.src }

/-! ### map entries -/

/-- one entry of a `MetricMap` -/
inductive Ent (α : Type) where
  | c (k : Key) (v : Counter)
  | g (k : Key) (v : Gauge α)
  | s (k : Key) (v : SetV)
  | t (k : Key) (v : Timer α)

namespace Ent
variable {α : Type}

def src : Ent α → String
  | .c _ v => v.src | .g _ v => v.src | .s _ v => v.src | .t _ v => v.src

def tags : Ent α → List String
  | .c _ v => v.tags | .g _ v => v.tags | .s _ v => v.tags | .t _ v => v.tags

def key : Ent α → Key
  | .c k _ => k | .g k _ => k | .s k _ => k | .t k _ => k

/-- `updateInplace(&v, instance)` then `FormatTagsKey(v.Source, v.Tags)` (sorts `v.Tags` in place):
the entry as it is handed to `mmOut.MergeX(name, newKey, v)` -/
def rekey (i : Option Inst) : Ent α → Ent α
  | .c k v => let tg := sortTags (enrichTags i v.tags); let sr := enrichSrc i v.src
              .c (k.1, joinKey sr tg) { v with tags := tg, src := sr }
  | .g k v => let tg := sortTags (enrichTags i v.tags); let sr := enrichSrc i v.src
              .g (k.1, joinKey sr tg) { v with tags := tg, src := sr }
  | .s k v => let tg := sortTags (enrichTags i v.tags); let sr := enrichSrc i v.src
              .s (k.1, joinKey sr tg) { v with tags := tg, src := sr }
  | .t k v => let tg := sortTags (enrichTags i v.tags); let sr := enrichSrc i v.src
              .t (k.1, joinKey sr tg) { v with tags := tg, src := sr }

/-- `mm.MergeCounter(name, tagsKey, v)` & co.: combine with the entry at that key or insert -/
def addTo [Add α] : Ent α → MM α → MM α
  | .c k v, m => { m with counters := AList.upsert k (fun o => match o with | none => v | some w => mergeCounter w v) m.counters }
  | .g k v, m => { m with gauges := AList.upsert k (fun o => match o with | none => v | some w => mergeGauge w v) m.gauges }
  | .s k v, m => { m with sets := AList.upsert k (fun o => match o with | none => v | some w => mergeSet w v) m.sets }
  | .t k v, m => { m with timers := AList.upsert k (fun o => match o with | none => v | some w => mergeTimer w v) m.timers }

/-- the map holding exactly this entry -/
def single [Add α] (e : Ent α) : MM α := e.addTo MM.empty

end Ent

/-- `Counters.Each`, `Gauges.Each`, `Sets.Each`, `Timers.Each` (the order of `handleIncomingMetrics`;
entries of different types never interact, entries of one type are visited in Go's map order) -/
def entries {α} (m : MM α) : List (Ent α) :=
  m.counters.map (fun e => Ent.c e.1 e.2) ++ m.gauges.map (fun e => Ent.g e.1 e.2) ++
  m.sets.map (fun e => Ent.s e.1 e.2) ++ m.timers.map (fun e => Ent.t e.1 e.2)

/-- a fresh map into which the entries are merged one by one -/
def ofEntries {α} [Add α] (es : List (Ent α)) : MM α := es.foldl (fun m e => e.addTo m) MM.empty

/-- `updateAndDispatchMetrics` / the hit branch of `DispatchMetricMap`: every entry enriched with the
instance `f` gives for its source, re-keyed, merged into a fresh map -/
def rekeyEntries {α} [Add α] (f : String → Option Inst) (es : List (Ent α)) : MM α :=
  ofEntries (es.map (fun e => e.rekey (f e.src)))

/-! ### the transition system -/

inductive Delivery (α : Type) where
  | metrics (m : MM α)
  | event (e : Event)

structure St (α : Type) where
  awaitingMetrics : AList String (MM α) := []
  awaitingEvents : AList String (List Event) := []
  /-- `toLookupIPs` (+ the hand `toLookupIP`) as one stack; head = top = next to be written to the sink -/
  toLookup : List String := []
  /-- written to the sink and not answered yet -/
  inFlight : List String := []
  /-- `statsMetricHostsQueued`, `statsEventHostsQueued`, `statsEventItemsQueued`: `uint64` in the code;
  kept as `Int` here, reduced mod 2^64 where the code converts to `float64` (driver) -/
  metricHosts : Int := 0
  eventHosts : Int := 0
  eventItems : Int := 0
  cacheHit : Nat := 0
  cacheMiss : Nat := 0
  /-- what reached the downstream handler (and was taken by it), in order -/
  delivered : List (Delivery α) := []
  /-- downstream is not returning from its dispatch calls -/
  blocked : Bool := false
  /-- released / forwarded by the stage while downstream is blocked, in order of production: the
  goroutines `updateAndDispatch…` (and callers of `Dispatch…` with a hit) are stuck in or before their
  downstream call -/
  held : List (Delivery α) := []
  /-- what was written to `IpSink()`, in order -/
  sent : List String := []
  /-- the gauge values of every emission: hit, miss, hosts(metric), hosts(event), items(event) -/
  emitted : List (Nat × Nat × Int × Int × Int) := []

inductive Action (α : Type) where
  | arriveMetrics (b : MM α) (pk : Peek)
  | arriveEvent (e : Event) (pk : Peek)
  | sendLookup
  | info (s : String) (r : Option Inst)
  | emit
  | block
  | unblock

variable {α : Type} [Add α]

/-- the stage hands `ds` to the downstream handler -/
def deliver (st : St α) (ds : List (Delivery α)) : St α :=
  if st.blocked then { st with held := st.held ++ ds } else { st with delivered := st.delivered ++ ds }

/-- everything the stage has let go of: taken by downstream, or stuck in front of it -/
def outbound (st : St α) : List (Delivery α) := st.delivered ++ st.held

/-- `len(ch.awaitingEvents[source]) == 0` -/
def noEvents (st : St α) (src : String) : Bool :=
  match AList.lookup src st.awaitingEvents with
  | some (_ :: _) => false
  | _ => true

/-- `ch.awaitingMetrics[source] == nil` / `_, ok := ch.awaitingMetrics[source]; !ok` -/
def noMetrics (st : St α) (src : String) : Bool := (AList.lookup src st.awaitingMetrics).isNone

/-- `prepareMetricQueue(v.Source).MergeX(name, tagsKey, v)` for one entry -/
def parkEnt (fix : Bool) (st : St α) (e : Ent α) : St α :=
  let src := e.src
  let isNew := noMetrics st src
  let noEv := noEvents st src
  { st with
    toLookup := if isNew && noEv then src :: st.toLookup else st.toLookup
    metricHosts := if isNew && (noEv || fix) then st.metricHosts + 1 else st.metricHosts
    awaitingMetrics := AList.upsert src (fun o => e.addTo (o.getD MM.empty)) st.awaitingMetrics }

/-- `handleIncomingEvent` -/
def parkEvent (fix : Bool) (st : St α) (e : Event) : St α :=
  let first := noEvents st e.src
  let noMet := noMetrics st e.src
  { st with
    awaitingEvents := AList.upsert e.src (fun o => o.getD [] ++ [e]) st.awaitingEvents
    toLookup := if first && noMet then e.src :: st.toLookup else st.toLookup
    eventHosts := if first && (noMet || fix) then st.eventHosts + 1 else st.eventHosts
    eventItems := st.eventItems + 1 }

/-- the metric half of `handleInstanceInfo` -/
def releaseMetrics (st : St α) (s : String) (r : Option Inst) : St α :=
  match AList.lookup s st.awaitingMetrics with
  | some m =>
    deliver { st with
      awaitingMetrics := AList.erase s st.awaitingMetrics
      metricHosts := st.metricHosts - 1 } [.metrics (rekeyEntries (fun _ => r) (entries m))]
  | none => st

/-- the event half of `handleInstanceInfo` -/
def releaseEvents (st : St α) (s : String) (r : Option Inst) : St α :=
  match AList.lookup s st.awaitingEvents with
  | some (e :: es) =>
    deliver { st with
      awaitingEvents := AList.erase s st.awaitingEvents
      eventItems := st.eventItems - ((e :: es).length : Int)
      eventHosts := st.eventHosts - 1 } ((e :: es).map (fun x => .event (enrichEvent r x)))
  | _ => st

/-- number of cache queries of a batch that hit / miss (`getInstance` does not count the empty source) -/
def countQueries (pk : Peek) (srcs : List String) : Nat × Nat :=
  let q := srcs.filter (· ≠ "")
  ((q.filter (fun s => (pk s).isSome)).length, (q.filter (fun s => (pk s).isNone)).length)

def step (fix : Bool) (st : St α) : Action α → St α
  | .arriveMetrics b pk =>
    let es := entries b
    let hits := es.filter (fun e => isHit pk e.src)
    let misses := es.filter (fun e => !isHit pk e.src)
    let out := rekeyEntries (instOf pk) hits
    let q := countQueries pk (es.map Ent.src)
    let st0 := { st with cacheHit := st.cacheHit + q.1, cacheMiss := st.cacheMiss + q.2 }
    let st1 := if out.isEmpty then st0 else deliver st0 [.metrics out]
    misses.foldl (parkEnt fix) st1
  | .arriveEvent e pk =>
    let q := countQueries pk [e.src]
    let st0 := { st with cacheHit := st.cacheHit + q.1, cacheMiss := st.cacheMiss + q.2 }
    match cacheView pk e.src with
    | some i => deliver st0 [.event (enrichEvent i e)]
    | none => parkEvent fix st0 e
  | .sendLookup =>
    match st.toLookup with
    | [] => st
    | s :: rest => { st with toLookup := rest, inFlight := s :: st.inFlight, sent := st.sent ++ [s] }
  | .info s r =>
    let st2 := releaseEvents (releaseMetrics st s r) s r
    { st2 with inFlight := st2.inFlight.erase s }
  | .emit =>
    { st with emitted := st.emitted ++ [(st.cacheHit, st.cacheMiss, st.metricHosts, st.eventHosts, st.eventItems)] }
  | .block => { st with blocked := true }
  | .unblock => { st with blocked := false, delivered := st.delivered ++ st.held, held := [] }

def init : St α := {}

def run (fix : Bool) (as : List (Action α)) : St α := as.foldl (step fix) init

/-- environment hypothesis of `C11_one_outstanding`: the cache answers only what it was asked -/
def EnvOK (st : St α) : Action α → Prop
  | .info s _ => s ∈ st.inFlight
  | _ => True

def RunOK (fix : Bool) (st : St α) : List (Action α) → Prop
  | [] => True
  | a :: as => EnvOK st a ∧ RunOK fix (step fix st a) as

/-! ### observable counts the gauges are meant to report -/

def hostsWithMetrics (st : St α) : Nat := st.awaitingMetrics.length
def hostsWithEvents (st : St α) : Nat := st.awaitingEvents.length
def parkedEvents (st : St α) : List Event := st.awaitingEvents.flatMap (·.2)

end Cloud
end Gsd
