import Gsd.Model.Split
import Gsd.Generated.Facts
/-!
Model of `gostatsd.MetricMap` (metric_map.go): `Receive`, `Merge`, `MergeMaps`, and the
`MetricConsolidator` slot protocol at the value level (metric_consolidator.go).

A series key is `(name, tagsKey)`.  Value types are polymorphic in the float type `α`
(`Float` in the driver; an exact commutative monoid in the proofs).  The comparison operators of
the timestamp tests are read from `Gsd.Facts` (regenerated from the source on every run).
-/
namespace Gsd

abbrev Key := String × String

structure Counter where
  value : Int
  ts : Int
  src : String
  tags : List String
deriving DecidableEq, Repr

structure Gauge (α : Type) where
  value : α
  ts : Int
  src : String
  tags : List String
deriving Repr

structure Timer (α : Type) where
  values : List α
  sampled : α
  ts : Int
  src : String
  tags : List String
deriving Repr

structure SetV where
  members : List String       -- Go: map[string]struct{}; kept duplicate-free in insertion order
  ts : Int
  src : String
  tags : List String
deriving DecidableEq, Repr

abbrev MM (α : Type) := MMap Key Counter (Timer α) (Gauge α) SetV

/-- interpretation of a comparison operator token extracted from the source -/
def cmpOp (op : String) (a b : Int) : Bool :=
  if op = "<" then a < b else if op = "<=" then a ≤ b else if op = ">" then a > b
  else if op = ">=" then a ≥ b else if op = "==" then a = b else if op = "!=" then a ≠ b else false

/-- a comparison whose direction `factgen` read from the source as a canonical token ("?" = the source no
longer has one recognisable comparison there: keep the built-in reading `dflt`) -/
def relCmp (tok dflt : String) (a b : Int) : Bool := cmpOp (if tok = "?" then dflt else tok) a b

/-- the single comparison of a function, `false` when the function no longer has exactly one -/
def soleCmp (ops : List String) (a b : Int) : Bool :=
  match ops with
  | [op] => cmpOp op a b
  | _ => false

/-! ### Merge (metric_map.go: MergeCounter / MergeGauge / MergeSet / MergeTimer) -/

/-- `if into.Timestamp < from.Timestamp { into.Timestamp = from.Timestamp }` -/
def bumpTs (tok : String) (into frm : Int) : Int := if relCmp tok "<" into frm then frm else into

def mergeCounter (into frm : Counter) : Counter :=
  { into with ts := bumpTs Facts.rel_MergeCounter into.ts frm.ts, value := into.value + frm.value }

def mergeGauge {α} (into frm : Gauge α) : Gauge α :=
  if relCmp Facts.rel_MergeGauge "<" into.ts frm.ts then { into with ts := frm.ts, value := frm.value } else into

def mergeTimer {α} [Add α] (into frm : Timer α) : Timer α :=
  { into with ts := bumpTs Facts.rel_MergeTimer into.ts frm.ts,
              values := into.values ++ frm.values, sampled := into.sampled + frm.sampled }

/-- `for v := range from.Values { into.Values[v] = struct{}{} }` -/
def setUnion (a b : List String) : List String :=
  b.foldl (fun acc v => if v ∈ acc then acc else acc ++ [v]) a

def mergeSet (into frm : SetV) : SetV :=
  { into with ts := bumpTs Facts.rel_MergeSet into.ts frm.ts, members := setUnion into.members frm.members }

/-- `from.Each(into.MergeX)`: every entry of `frm` is combined into `into` (or copied when absent) -/
def mergeWith {ν} (f : ν → ν → ν) (into frm : AList Key ν) : AList Key ν :=
  frm.foldl (fun acc e => AList.upsert e.1 (fun o => match o with | none => e.2 | some w => f w e.2) acc) into

namespace MM
variable {α : Type} [Add α]

def empty : MM α := {}

/-- `(mm *MetricMap) Merge(mmFrom)` -/
def merge (into frm : MM α) : MM α :=
  { counters := mergeWith mergeCounter into.counters frm.counters,
    gauges   := mergeWith mergeGauge   into.gauges   frm.gauges,
    sets     := mergeWith mergeSet     into.sets     frm.sets,
    timers   := mergeWith mergeTimer   into.timers   frm.timers }

/-- `MergeMaps(mms)` (for a non-empty slice; the Go function returns nil for an empty one) -/
def mergeMaps (ms : List (MM α)) : MM α := ms.foldl merge empty

end MM

/-! ### Receive (metric_map.go: receiveCounter / receiveGauge / receiveTimer / receiveSet) -/

inductive MType | counter | timer | gauge | set
deriving DecidableEq, Repr

/-- a parsed datapoint (`gostatsd.Metric`) -/
structure Dp (α : Type) where
  name : String
  tagsKey : String
  ty : MType
  value : α
  rate : α
  sval : String
  ts : Int
  src : String
  tags : List String

/-- the two float→… conversions of `Receive`: `int64(value / rate)` and `1.0 / rate` -/
structure NumOps (α : Type) where
  toCount : α → α → Int
  invRate : α → α

def recvCounter (cnt : Int) (ts : Int) (c : Counter) : Counter :=
  { c with value := c.value + cnt, ts := if relCmp Facts.rel_receiveCounter ">" ts c.ts then ts else c.ts }

def recvGauge {α} (v : α) (ts : Int) (g : Gauge α) : Gauge α :=
  if relCmp Facts.rel_receiveGauge ">=" ts g.ts then { g with value := v, ts := ts } else g

def recvTimer {α} [Add α] (v inv : α) (ts : Int) (t : Timer α) : Timer α :=
  { t with values := t.values ++ [v], ts := if relCmp Facts.rel_receiveTimer ">" ts t.ts then ts else t.ts,
           sampled := t.sampled + inv }

def recvSet (s : String) (ts : Int) (x : SetV) : SetV :=
  { x with members := if s ∈ x.members then x.members else x.members ++ [s],
           ts := if relCmp Facts.rel_receiveSet ">" ts x.ts then ts else x.ts }

namespace MM
variable {α : Type} [Add α]

/-- `(mm *MetricMap) Receive(m)` -/
def receive (ops : NumOps α) (m : MM α) (d : Dp α) : MM α :=
  let k : Key := (d.name, d.tagsKey)
  match d.ty with
  | .counter =>
    let cnt := ops.toCount d.value d.rate
    { m with counters := AList.upsert k (fun o => match o with
        | some c => recvCounter cnt d.ts c
        | none => { value := cnt, ts := d.ts, src := d.src, tags := d.tags }) m.counters }
  | .gauge =>
    { m with gauges := AList.upsert k (fun o => match o with
        | some g => recvGauge d.value d.ts g
        | none => { value := d.value, ts := d.ts, src := d.src, tags := d.tags }) m.gauges }
  | .timer =>
    { m with timers := AList.upsert k (fun o => match o with
        | some t => recvTimer d.value (ops.invRate d.rate) d.ts t
        | none => { values := [d.value], sampled := ops.invRate d.rate, ts := d.ts, src := d.src, tags := d.tags }) m.timers }
  | .set =>
    { m with sets := AList.upsert k (fun o => match o with
        | some s => recvSet d.sval d.ts s
        | none => { members := [d.sval], ts := d.ts, src := d.src, tags := d.tags }) m.sets }

/-- the map holding exactly one datapoint -/
def single (ops : NumOps α) (d : Dp α) : MM α := receive ops empty d

def receiveAll (ops : NumOps α) (m : MM α) (ds : List (Dp α)) : MM α := ds.foldl (receive ops) m

end MM

/-! ### Merge programs: any bracketing of merges over leaves (maps or datapoint lists) -/

inductive MTree (α : Type) where
  | leaf : MM α → MTree α
  | node : MTree α → MTree α → MTree α

namespace MTree
variable {α : Type} [Add α]

/-- `node l r` = `l.Merge(r)` -/
def eval : MTree α → MM α
  | leaf m => m
  | node l r => MM.merge (eval l) (eval r)

def leaves : MTree α → List (MM α)
  | leaf m => [m]
  | node l r => leaves l ++ leaves r

end MTree

end Gsd

/-! ### MetricConsolidator at the value level (metric_consolidator.go)

`k ≥ 1` slot maps circulate through a channel; `ReceiveMetricMap` / `ReceiveMetrics` take *whichever*
slot is available (index `i`, arbitrary), merge into it and put it back; `Drain` collects all `k` slots
and the consumer combines them with `MergeMaps`. -/
namespace Gsd

inductive COp (α : Type) where
  | map (i : Nat) (m : MM α)              -- ReceiveMetricMap into slot i
  | dps (i : Nat) (ds : List (Dp α))      -- ReceiveMetrics into slot i

namespace Consolidator
variable {α : Type} [Add α]

def init (k : Nat) : List (MM α) := List.replicate k MM.empty

def step (ops : NumOps α) (slots : List (MM α)) : COp α → List (MM α)
  | .map i m => slots.modify (i % slots.length) (fun s => MM.merge s m)
  | .dps i ds => slots.modify (i % slots.length) (fun s => MM.receiveAll ops s ds)

def run (ops : NumOps α) (k : Nat) (prog : List (COp α)) : List (MM α) := prog.foldl (step ops) (init k)

/-- what the flush hands on: `MergeMaps(Drain())` -/
def drainMerged (ops : NumOps α) (k : Nat) (prog : List (COp α)) : MM α := MM.mergeMaps (run ops k prog)

/-- the leaves an operation contributes -/
def leavesOf (ops : NumOps α) : COp α → List (MM α)
  | .map _ m => [m]
  | .dps _ ds => ds.map (MM.single ops)

end Consolidator
end Gsd
