/-
Association lists: the model of Go's `map[string]map[string]V` (flattened to one key).
All statements in the proofs are about `lookup`, never about list order, so Go's random
map iteration order is irrelevant.  Core-only (no Mathlib) so the driver links.
-/
namespace Gsd

abbrev AList (κ : Type) (ν : Type) := List (κ × ν)

namespace AList
variable {κ ν : Type} [DecidableEq κ]

def lookup (k : κ) : AList κ ν → Option ν
  | [] => none
  | (k', v) :: t => if k' = k then some v else lookup k t

/-- insert-or-combine: the shape of `MergeCounter` & co. (`v, ok := m[k]; if ok {f old} else {new}`) -/
def upsert (k : κ) (f : Option ν → ν) : AList κ ν → AList κ ν
  | [] => [(k, f none)]
  | (k', v) :: t => if k' = k then (k', f (some v)) :: t else (k', v) :: upsert k f t

def erase (k : κ) : AList κ ν → AList κ ν
  | [] => []
  | (k', v) :: t => if k' = k then erase k t else (k', v) :: erase k t

def keys (m : AList κ ν) : List κ := m.map Prod.fst

def NodupKeys (m : AList κ ν) : Prop := (keys m).Nodup

instance (m : AList κ ν) : Decidable (NodupKeys m) := inferInstanceAs (Decidable (List.Nodup _))

/-- keep the entries whose key satisfies `p` -/
def filterKeys (p : κ → Bool) (m : AList κ ν) : AList κ ν := m.filter (fun e => p e.1)

/-- map values, keeping keys -/
def mapVals {μ : Type} (f : κ → ν → μ) (m : AList κ ν) : AList κ μ := m.map (fun e => (e.1, f e.1 e.2))

/-- keep / transform entries -/
def filterMapVals {μ : Type} (f : κ → ν → Option μ) : AList κ ν → AList κ μ
  | [] => []
  | (k, v) :: t => match f k v with
    | some w => (k, w) :: filterMapVals f t
    | none => filterMapVals f t

end AList
end Gsd
