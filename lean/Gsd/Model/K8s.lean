import Gsd.Model.AList
/-!
C13 — model of the Kubernetes provider (`pkg/cachedinstances/k8s/k8s.go`).

* the informer store is an association list `PodKey → Pod` (client-go's thread-safe store keyed by
  `namespace/name`); the `PodByIP` index is *derived*: the pods of the store for which
  `podByIpIndexFunc` returns `[ip]`, i.e. the `indexable` ones holding that IP;
* `Provider.cache` (the memo) is an association list `IP → Option Inst`; `some none` is a memoised
  nil pointer, which `instanceFromCache` treats as a miss (`if instance != nil`) and recomputes;
* the informer's delta processing (`processDeltas`): Added/Updated/Sync/Replaced all become
  "in the store? `Update` + `OnUpdate(old, new)` : `Add` + `OnAdd(new)`" — one op `apply`;
  Deleted becomes `Delete` + `OnDelete(obj)` with the object *carried by the event*; a resync is
  `OnUpdate(p, p)` for every stored pod;
* `cacheInvalidationHandler`: `OnAdd` does nothing, `OnUpdate` looks at the **old** pod only,
  `OnDelete` at the deleted object; the memo entry of the pod's IP is dropped iff that pod is indexable;
* `regexp` is a parameter: `reMatch pat key = some (whole, tagGroups)` when
  `FindStringSubmatch` is non-nil, `whole = match[0]`, `tagGroups` = the texts of the groups named
  `tag` in the order of `SubexpNames()`.
-/
namespace Gsd.K8s
open Gsd

structure Pod where
  ns : String
  name : String
  ip : String            -- Status.PodIP
  hostIP : String        -- Status.HostIP
  hostNetwork : Bool     -- Spec.HostNetwork
  phase : String         -- Status.Phase ("Pending", "Running", "Succeeded", "Failed", "Unknown", "")
  deleting : Bool        -- DeletionTimestamp != nil
  labels : AList String String
  annotations : AList String String
deriving DecidableEq, Repr

abbrev PodKey := String × String

def Pod.key (p : Pod) : PodKey := (p.ns, p.name)

/-- `podIsFinishedRunning` -/
def finished (p : Pod) : Bool := p.phase == "Succeeded" || p.phase == "Failed" || p.deleting

/-- `podIsHostNetwork` -/
def isHostNetwork (p : Pod) : Bool := p.hostNetwork || p.ip == p.hostIP

/-- `isIndexablePod` -/
def indexable (p : Pod) : Bool := !(p.ip == "" || finished p || isHostNetwork p)

structure Inst where
  id : String
  tags : List String
deriving DecidableEq, Repr

/-- the regex oracle: `none` = `FindStringSubmatch` returned nil -/
abbrev ReMatch (Pat : Type) := Pat → String → Option (String × List String)

/-- `getTagNameFromRegex`; `""` means "no tag for this key" exactly as in the code -/
def getTagName {Pat : Type} (reMatch : ReMatch Pat) (re : Pat) (key : String) : String :=
  match reMatch re key with
  | none => ""
  | some (whole, groups) =>
    match groups.find? (fun g => g ≠ "") with
    | some g => g
    | none => if whole ≠ "" then key else ""

/-- the loop over `pod.ObjectMeta.Labels` / `.Annotations` (a nil regex disables it) -/
def tagsOf {Pat : Type} (reMatch : ReMatch Pat) (re : Option Pat) (m : AList String String) : List String :=
  match re with
  | none => []
  | some r => m.filterMap (fun e =>
      let n := getTagName reMatch r e.1
      if n ≠ "" then some (n ++ ":" ++ e.2) else none)

structure Config (Pat : Type) where
  reMatch : ReMatch Pat
  labelRe : Option Pat
  annRe : Option Pat

/-- the instance `instanceFromInformer` builds from one pod -/
def derive {Pat : Type} (cfg : Config Pat) (p : Pod) : Inst :=
  { id := p.ns ++ "/" ++ p.name
    tags := tagsOf cfg.reMatch cfg.labelRe p.labels ++ tagsOf cfg.reMatch cfg.annRe p.annotations }

abbrev Store := AList PodKey Pod

structure State where
  store : Store := []
  memo : AList String (Option Inst) := []
deriving Repr

def init : State := {}

/-- `GetIndexer().ByIndex("PodByIP", ip)`: the stored pods whose index value is `ip` -/
def podsAt (store : Store) (ip : String) : List Pod :=
  (store.map Prod.snd).filter (fun p => indexable p && p.ip == ip)

/-- `instanceFromInformer` (`objs[0]`; with several pods the real order is that of a Go set) -/
def fromInformer {Pat : Type} (cfg : Config Pat) (store : Store) (ip : String) : Option Inst :=
  (podsAt store ip).head?.map (derive cfg)

/-- `instanceFromCache` -/
def instanceFromCache {Pat : Type} (cfg : Config Pat) (s : State) (ip : String) : State × Option Inst :=
  match AList.lookup ip s.memo with
  | some (some inst) => (s, some inst)
  | _ =>
    let r := fromInformer cfg s.store ip
    ({ s with memo := s.memo.upsert ip (fun _ => r) }, r)

/-- `maybeInvalidateCacheForPod` -/
def invalidate (s : State) (p : Pod) : State :=
  if indexable p then { s with memo := s.memo.erase p.ip } else s

inductive Op where
  | apply (p : Pod)      -- Added / Updated / Sync / Replaced delta
  | delete (p : Pod)     -- Deleted delta carrying `p` (also as a `DeletedFinalStateUnknown` tombstone)
  | resync               -- `OnUpdate(p, p)` for every stored pod
  | lookup (ip : String) -- `Peek(ip)` / an IP on `IpSink()`
deriving Repr

inductive Out where
  | ev
  | ans (r : Option Inst)
deriving DecidableEq, Repr

/-- what an event does to the informer's store (no memo involved) -/
def storeStep (store : Store) : Op → Store
  | .apply p => store.upsert p.key (fun _ => p)
  | .delete p => store.erase p.key
  | .resync => store
  | .lookup _ => store

def step {Pat : Type} (cfg : Config Pat) (s : State) : Op → State × Out
  | .apply p =>
    let s' := { s with store := s.store.upsert p.key (fun _ => p) }
    match AList.lookup p.key s.store with
    | some old => (invalidate s' old, .ev)     -- OnUpdate(old, new): only `old` is looked at
    | none => (s', .ev)                        -- OnAdd: nothing
  | .delete p => (invalidate { s with store := s.store.erase p.key } p, .ev)
  | .resync => ((s.store.map Prod.snd).foldl invalidate s, .ev)
  | .lookup ip =>
    let r := instanceFromCache cfg s ip
    (r.1, .ans r.2)

def run {Pat : Type} (cfg : Config Pat) (s : State) : List Op → List Out
  | [] => []
  | op :: rest => (step cfg s op).2 :: run cfg (step cfg s op).1 rest

def stateAfter {Pat : Type} (cfg : Config Pat) (s : State) : List Op → State
  | [] => s
  | op :: rest => stateAfter cfg (step cfg s op).1 rest

def storeAfter (store : Store) : List Op → Store
  | [] => store
  | op :: rest => storeAfter (storeStep store op) rest

/-! ### The specification: computed from the current pod set only -/

/-- "running, non-host-network pod currently holding `ip`", written from the property text -/
def holds (ip : String) (p : Pod) : Bool :=
  p.ip == ip && p.ip != "" && p.phase != "Succeeded" && p.phase != "Failed" && !p.deleting &&
    !p.hostNetwork && p.ip != p.hostIP

def specAnswer {Pat : Type} (cfg : Config Pat) (store : Store) (ip : String) : Option Inst :=
  ((store.map Prod.snd).find? (holds ip)).map (derive cfg)

def specRun {Pat : Type} (cfg : Config Pat) (store : Store) : List Op → List Out
  | [] => []
  | op :: rest =>
    (match op with
      | .lookup ip => Out.ans (specAnswer cfg store ip)
      | _ => Out.ev) :: specRun cfg (storeStep store op) rest

/-! ### Hypotheses on histories -/

/-- IPs of the indexable pods of a store -/
def indexedIPs (store : Store) : List String := ((store.map Prod.snd).filter indexable).map (·.ip)

/-- no two indexable pods share an IP -/
def distinctIPs (store : Store) : Bool := decide (indexedIPs store).Nodup

/-- a Deleted event carries the pod version the store holds (what the API server and the tombstone
path of client-go deliver); deleting an unknown pod is unconstrained -/
def okOp (store : Store) : Op → Bool
  | .delete p => match AList.lookup p.key store with
    | some q => decide (q = p)
    | none => true
  | _ => true

/-- deletes are consistent along the history -/
def consistent (store : Store) : List Op → Bool
  | [] => true
  | op :: rest => okOp store op && consistent (storeStep store op) rest

/-- consistent, and at every moment the indexable pods have pairwise distinct IPs -/
def valid (store : Store) : List Op → Bool
  | [] => true
  | op :: rest => okOp store op && distinctIPs (storeStep store op) && valid (storeStep store op) rest

/-! ### The lookup/update race (outside the property's quantifier; kept so that it can be replayed)

A missed `instanceFromCache` is two critical sections: the informer read (`lookupRead`, no lock on the
memo) and the memo write (`lookupWrite`).  Go may run an event handler in between. -/

def lookupRead {Pat : Type} (cfg : Config Pat) (s : State) (ip : String) : Option Inst :=
  fromInformer cfg s.store ip

def lookupWrite (s : State) (ip : String) (r : Option Inst) : State :=
  { s with memo := s.memo.upsert ip (fun _ => r) }

/-- histories that may contain racing lookups: `race ip ev` = a lookup of `ip` during which event
`ev` is handled after the informer read (on a memo hit nothing is read and the event just follows) -/
inductive XOp where
  | plain (op : Op)
  | race (ip : String) (ev : Op)
deriving Repr

/-- does handling `ev` in state `s` drop a memo entry (`delete(e.p.cache, …)` is reached)? -/
def eventInvalidates (s : State) : Op → Bool
  | .apply p => match AList.lookup p.key s.store with
    | some old => indexable old
    | none => false
  | .delete p => indexable p
  | .resync => (s.store.map Prod.snd).any indexable
  | .lookup _ => false

/-- `false` = the pinned tree.  `true` = the candidate repair `handoff/C13-fix-1.patch` (a generation
counter bumped by every invalidation; a computed instance is memoised only if the counter did not
move while it was computed).  This is the one line to switch when the repair is applied. -/
def raceFixed : Bool := true

/-- `fixed = false`: the pinned tree; `fixed = true`: with the generation counter of the repair -/
def xstepG {Pat : Type} (fixed : Bool) (cfg : Config Pat) (s : State) : XOp → State × Out
  | .plain op => step cfg s op
  | .race ip ev =>
    match AList.lookup ip s.memo with
    | some (some inst) => ((step cfg s ev).1, .ans (some inst))
    | _ =>
      let r := lookupRead cfg s ip
      if fixed && eventInvalidates s ev then ((step cfg s ev).1, .ans r)
      else (lookupWrite (step cfg s ev).1 ip r, .ans r)

def xrunG {Pat : Type} (fixed : Bool) (cfg : Config Pat) (s : State) : List XOp → List Out
  | [] => []
  | op :: rest => (xstepG fixed cfg s op).2 :: xrunG fixed cfg (xstepG fixed cfg s op).1 rest

/-- what the driver runs -/
def xrun {Pat : Type} (cfg : Config Pat) (s : State) (l : List XOp) : List Out := xrunG raceFixed cfg s l

/-- the specification for such histories: the racing lookup is linearised before its event -/
def xspecRun {Pat : Type} (cfg : Config Pat) (store : Store) : List XOp → List Out
  | [] => []
  | .plain op :: rest =>
    (match op with
      | .lookup ip => Out.ans (specAnswer cfg store ip)
      | _ => Out.ev) :: xspecRun cfg (storeStep store op) rest
  | .race ip ev :: rest => Out.ans (specAnswer cfg store ip) :: xspecRun cfg (storeStep store ev) rest

def xops (l : List XOp) : List Op :=
  l.flatMap (fun x => match x with | .plain op => [op] | .race ip ev => [Op.lookup ip, ev])

end Gsd.K8s
