/-! Go strings are byte strings: shared by every model that looks inside strings. -/
namespace Gsd
abbrev Bytes := List UInt8
end Gsd
