import Gsd.Driver.C06
import Gsd.Driver.Proto
import Gsd.Generated.Facts
import Gsd.Model.AList
import Gsd.Model.Split
import Gsd.Proofs.C06
import Gsd.Proofs.Lemmas.AList
