import Gsd.Driver.C01
import Gsd.Driver.C02
import Gsd.Driver.C03
import Gsd.Driver.C04
import Gsd.Driver.C05
import Gsd.Driver.C06
import Gsd.Driver.C07
import Gsd.Driver.C08
import Gsd.Driver.C09
import Gsd.Driver.C10
import Gsd.Driver.C11
import Gsd.Driver.C12
import Gsd.Driver.C13
import Gsd.Driver.C14
import Gsd.Driver.C15
import Gsd.Driver.C16
import Gsd.Driver.C17
import Gsd.Driver.C18
import Gsd.Driver.C19
import Gsd.Driver.C20

def main (args : List String) : IO UInt32 := do
  match args with
  | "C01" :: rest => Gsd.Driver.C01.main rest
  | "C02" :: rest => Gsd.Driver.C02.main rest
  | "C03" :: rest => Gsd.Driver.C03.main rest
  | "C04" :: rest => Gsd.Driver.C04.main rest
  | "C05" :: rest => Gsd.Driver.C05.main rest
  | "C06" :: rest => Gsd.Driver.C06.main rest
  | "C07" :: rest => Gsd.Driver.C07.main rest
  | "C08" :: rest => Gsd.Driver.C08.main rest
  | "C09" :: rest => Gsd.Driver.C09.main rest
  | "C10" :: rest => Gsd.Driver.C10.main rest
  | "C11" :: rest => Gsd.Driver.C11.main rest
  | "C12" :: rest => Gsd.Driver.C12.main rest
  | "C13" :: rest => Gsd.Driver.C13.main rest
  | "C14" :: rest => Gsd.Driver.C14.main rest
  | "C15" :: rest => Gsd.Driver.C15.main rest
  | "C16" :: rest => Gsd.Driver.C16.main rest
  | "C17" :: rest => Gsd.Driver.C17.main rest
  | "C18" :: rest => Gsd.Driver.C18.main rest
  | "C19" :: rest => Gsd.Driver.C19.main rest
  | "C20" :: rest => Gsd.Driver.C20.main rest
  | _ => IO.eprintln "usage: gsdmodel <Cxx> (model|spec)"; return 2
